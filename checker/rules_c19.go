package main

import (
	"fmt"
	"go/types"
	"strings"

	"golang.org/x/tools/go/ssa"
)

func init() { register("C19", checkC19) }

func checkC19(cx *Ctx, r *Report) {
	w, fx := cx.W, cx.Fx
	cx.checkContextKeys(r)
	cx.checkRequestNotRewritten(r)
	// the issuer a reply states is the one derived for this request: the metadata document served is built from this
	// request's context, not kept from a request that arrived for another host (shared with C11)
	cx.checkMetadataOfThisRequest(r)
	r.Clauses = []string{
		"static issuer: ValidateIssuer returns nil only for a non-empty string that net/url.Parse accepts, with a non-empty host, scheme https (or http when devLocalAllowed, which is allowInsecure && scheme == http), and only as the verdict of ValidateIssuerPath, which returns nil only for an empty fragment and an empty query; StaticIssuer returns that error and NewProvider propagates the factory's error, calling it with the provider's insecure flag",
		"derived issuer: the closure returned by issuerFromForwardedOrHost builds its result only from the constants https / http / :// / '/', the configured path, Request.Host and element 0 of httpforwarded.ParseParameter(\"host\", Request.Header[<configured header>]) by plain concatenation; the scheme constant is chosen by allowInsecure alone; the header list consulted is exactly the configured one (none for IssuerFromHost)",
	}
	r.NotDec = []string{"net/url's and httpforwarded's parsing of exotic strings"}
	r.Assume = []string{"net/url.Parse splits scheme, host, query and fragment as documented"}

	// --- ValidateIssuer ----------------------------------------------------------------------------
	vi := w.Func("provider.ValidateIssuer")
	vp := w.Func("provider.ValidateIssuerPath")
	dl := w.Func("provider.devLocalAllowed")
	if vi == nil || vp == nil || dl == nil {
		r.Fail("R-GUARD", "anchors", "", "ValidateIssuer / ValidateIssuerPath / devLocalAllowed not found")
		return
	}
	aps, ok := fx.atomPaths(vi, 4096)
	if !ok {
		r.Undecided("R-GUARD", "ValidateIssuer", w.FnPos(vi), "too many paths")
	} else {
		bad := ""
		n := 0
		for i := range aps {
			p := &aps[i]
			rv := fx.retVal(p, 0)
			_, nonNil := fx.errNilness(p, rv)
			if nonNil {
				continue
			}
			n++
			// the only possibly-nil return is the verdict of ValidateIssuerPath(u)
			c, isCall := rv.(*ssa.Call)
			if !isCall || calleeOf(c) != vp {
				bad = "ValidateIssuer can return nil without going through ValidateIssuerPath (" + w.InstrPos(p.Ret) + ")"
				continue
			}
			nonEmpty, parsed, host, scheme := false, false, false, false
			for _, a := range p.Atoms {
				switch {
				case a.Op == "EMPTY" && a.Neg && a.TA == "<#0 string>":
					nonEmpty = true
				case a.Op == "NIL" && !a.Neg && strings.HasSuffix(a.A, "url.Parse#1"):
					parsed = true
				case a.Op == "EMPTY" && a.Neg && strings.HasSuffix(a.A, "url.Parse#0.Host"):
					host = true
				case a.Op == "EQ" && !a.Neg && (a.A == "const:https" && strings.HasSuffix(a.B, "url.Parse#0.Scheme") || a.B == "const:https" && strings.HasSuffix(a.A, "url.Parse#0.Scheme")):
					scheme = true
				case a.Op == "CALL:provider.devLocalAllowed" && !a.Neg:
					if cc, ok := stripNot(a.Cond).(*ssa.Call); ok && strings.HasSuffix(fx.path(cc.Call.Args[0]), "url.Parse#0") && fx.T(fx.path(cc.Call.Args[1])) == "<#1 bool>" {
						scheme = true
					}
				}
			}
			if !(nonEmpty && parsed && host && scheme) {
				bad = fmt.Sprintf("an issuer can be accepted without: non-empty (%v), parsed by net/url.Parse without error (%v), host present (%v), https or explicitly allowed http (%v)", nonEmpty, parsed, host, scheme)
			}
			// the URL validated is the parsed issuer
			if !strings.HasSuffix(fx.path(c.Call.Args[0]), "url.Parse#0") {
				bad = "ValidateIssuerPath is applied to something other than the parsed issuer"
			}
		}
		// url.Parse is applied to the issuer parameter
		okParse := false
		for _, c := range callsIn(vi) {
			if calleeName(c) == "net/url.Parse" && fx.T(fx.path(c.Common().Args[0])) == "<#0 string>" {
				okParse = true
			}
		}
		if !okParse {
			bad = "the issuer is not parsed with net/url.Parse"
		}
		r.Check(bad == "" && n > 0, "R-GUARD", "ValidateIssuer", w.FnPos(vi), fmt.Sprintf("%d accepting path(s): non-empty, parsed, host present, https or allowed http, verdict of ValidateIssuerPath", n), bad)
	}
	// ValidateIssuerPath
	if aps, ok := fx.atomPaths(vp, 256); ok {
		bad := ""
		n := 0
		for i := range aps {
			p := &aps[i]
			isNil, _ := fx.errNilness(p, fx.retVal(p, 0))
			if !isNil {
				continue
			}
			n++
			frag, query := false, false
			for _, a := range p.Atoms {
				if a.Op == "EMPTY" && !a.Neg && a.TA == "<url.URL>.Fragment" {
					frag = true
				}
				if a.Op == "EMPTY" && !a.Neg && strings.HasSuffix(a.A, "url.URL).Query") {
					query = true
				}
				if a.Op == "LT" && a.Neg && a.A == "const:0" && strings.Contains(a.B, "url.URL).Query") {
					query = true
				}
			}
			if !frag || !query {
				bad = fmt.Sprintf("nil is returned without fragment empty (%v) and query empty (%v)", frag, query)
			}
		}
		r.Check(bad == "" && n > 0, "R-GUARD", "ValidateIssuerPath", w.FnPos(vp), "nil only for an empty fragment and an empty query", bad)
	}
	// devLocalAllowed
	if tp, _, ok := fx.boolPaths(dl, 64); ok {
		bad := ""
		for _, p := range tp {
			ins, http := false, false
			for _, a := range p.Atoms {
				if a.Op == "TRUE" && !a.Neg && a.TA == "<#1 bool>" {
					ins = true
				}
				if a.Op == "EQ" && !a.Neg && (a.A == "const:http" || a.B == "const:http") && strings.HasSuffix(a.A+a.B, ".Scheme") {
					http = true
				}
			}
			if !ins || !http {
				bad = "devLocalAllowed can be true without allowInsecure && scheme == \"http\""
			}
		}
		r.Check(bad == "" && len(tp) > 0, "R-GUARD", "devLocalAllowed", w.FnPos(dl), "true only for allowInsecure && scheme == http", bad)
	}
	// StaticIssuer / NewProvider propagate
	if f := w.Func("provider.StaticIssuer$1"); f != nil {
		cx.checkErrPropagation(r, "R-ERR", "provider.StaticIssuer$1", f)
		okArgs := false
		for _, c := range callsIn(f) {
			if calleeOf(c) == vi {
				okArgs = fx.T(fx.path(c.Common().Args[0])) == "<#0 string>" && fx.T(fx.path(c.Common().Args[1])) == "<#0 bool>"
			}
		}
		r.Check(okArgs, "R-VFG", "StaticIssuer:validates", w.FnPos(f), "validates its own issuer with the insecure flag it is given", "StaticIssuer does not validate its issuer with the insecure flag it is given")
		// the closure returns exactly that issuer
		if g := w.Func("provider.StaticIssuer$1$1"); g != nil {
			okR := true
			for _, ret := range returnsOf(g) {
				if fx.T(fx.path(ret.Results[0])) != "<#0 string>" {
					okR = false
				}
			}
			r.Check(okR, "R-VFG", "StaticIssuer:returns", w.FnPos(g), "returns the validated issuer", "the static issuer closure returns something other than the validated issuer")
		}
	} else {
		r.Fail("R-ERR", "provider.StaticIssuer$1", "", "anchor not found")
	}
	if np := w.Func("provider.NewProvider"); np != nil {
		cx.checkErrPropagation(r, "R-ERR", "provider.NewProvider", np)
		okFlag := false
		// (the call may sit in a private piece of the constructor that is handed the factory)
		for _, g := range w.sortedFuncs(w.scopeOf(np)) {
			for _, c := range callsIn(g) {
				if calleeOf(c) != nil || c.Common().IsInvoke() || len(c.Common().Args) != 1 {
					continue
				}
				isFactory := false
				if _, isP := c.Common().Value.(*ssa.Parameter); isP {
					isFactory = true
					for _, v := range fx.throughWrapperParams(c.Common().Value, 0) {
						if !(v.Parent() == np && isParamIdx(v, 1)) {
							isFactory = false
						}
					}
				}
				if isFactory {
					okFlag = strings.HasSuffix(fx.path(c.Common().Args[0]), ".insecure") && strings.HasSuffix(fx.T(fx.path(c.Common().Args[0])), "<provider.Provider>.insecure")
				}
			}
		}
		r.Check(okFlag, "R-VFG", "NewProvider:insecure-flag", w.FnPos(np), "the issuer factory is called with the provider's insecure flag", "the issuer factory is not called with the provider's insecure flag")
		// ... and with the flag as the options left it: no option is applied after the factory was called (WithAllowInsecure
		// would come too late, the issuer would be validated / derived for secure mode)
		var issuerCalls, optionSites []ssa.CallInstruction
		isOptionT := func(t types.Type) bool {
			if sl, ok := t.Underlying().(*types.Slice); ok {
				t = sl.Elem()
			}
			n := namedOf(t)
			return n != nil && n.Obj().Name() == "Option" && n.Obj().Pkg() != nil && isModulePath(n.Obj().Pkg().Path())
		}
		for _, c := range callsIn(np) {
			switch {
			case calleeOf(c) == nil && !c.Common().IsInvoke() && isParamIdx(c.Common().Value, 1):
				issuerCalls = append(issuerCalls, c)
			case calleeOf(c) == nil && !c.Common().IsInvoke() && isOptionT(c.Common().Value.Type()):
				optionSites = append(optionSites, c)
			default:
				if g := calleeOf(c); g != nil && g.Pkg == np.Pkg {
					for _, a := range c.Common().Args {
						if isOptionT(a.Type()) {
							optionSites = append(optionSites, c)
						}
					}
				}
			}
		}
		late := ""
		fi := fx.info(np)
		for _, ic := range issuerCalls {
			for _, oc := range optionSites {
				ib, ob := ic.Block(), oc.Block()
				if ib == ob && instrIndex(oc.(ssa.Instruction)) > instrIndex(ic.(ssa.Instruction)) || ib != ob && fi.reachable(ib, ob) {
					late = w.InstrPos(oc)
				}
			}
		}
		r.Check(late == "" && len(optionSites) > 0, "R-ORDER", "NewProvider:options-before-issuer", w.FnPos(np), "every option is applied before the issuer factory is called", "an option is applied after the issuer factory was called ("+late+"), or no option application was found: the factory does not see the insecure flag the options set")
	}

	// insecure mode is switched on explicitly only: Provider.insecure is written by the closure WithAllowInsecure
	// returns (the constant true) and by nothing else - in particular not from configuration shared between providers -
	// and an option writes only into the provider it is applied to
	{
		nW := 0
		for _, fn := range w.Funcs {
			for _, st := range fx.info(fn).stores {
				fa, ok := st.Addr.(*ssa.FieldAddr)
				if !ok {
					continue
				}
				owner, field := fieldOwner(fa.X.Type()), fname(fieldVar(fa.X.Type(), fa.Field))
				if owner == "provider.Provider" && field == "insecure" {
					nW++
					k, isC := st.Val.(*ssa.Const)
					okW := isC && k.Value != nil && k.Value.ExactString() == "true" && isOptionFunc(fn)
					r.Check(okW, "R-WHO", "Provider.insecure@"+w.FuncKey(fn), w.InstrPos(st), "set to true by the WithAllowInsecure option", "Provider.insecure is written at "+w.InstrPos(st)+" other than by the WithAllowInsecure option with the constant true (e.g. from a configuration value): http issuers become acceptable without insecure mode having been enabled explicitly for this provider")
				}
				if isOptionFunc(fn) {
					// an Option closure: stores go to fields of the provider parameter itself
					if _, isLd := fa.X.(*ssa.UnOp); isLd && strings.HasSuffix(owner, "Config") {
						r.Check(false, "R-WHO", "option-writes-config@"+w.FuncKey(fn), w.InstrPos(st), "", "the option "+w.FuncKey(fn)+" writes "+owner+"."+field+" of an object reached through the provider (configuration that other providers built from the same Config share): insecure mode of one provider leaks into the next")
					}
				}
			}
		}
		r.Check(nW >= 1, "R-WHO", "Provider.insecure:#writers", "", fmt.Sprintf("%d writer(s)", nW), "Provider.insecure is never written: insecure mode cannot be enabled explicitly any more")
	}

	// --- derived issuer ----------------------------------------------------------------------------------
	fac := w.Func("provider.issuerFromForwardedOrHost")
	cl := w.Func("provider.issuerFromForwardedOrHost$1$1")
	if fac == nil || cl == nil {
		r.Fail("R-VFG", "issuerFromForwardedOrHost", "", "anchor not found")
		return
	}
	vf := cx.newVFlow("issuerFromForwardedOrHost", fac)
	ls := LabelSet{}
	for _, ret := range returnsOf(cl) {
		ls.addAll(vf.Labels(ret.Results[0]), 0)
	}
	allowed := []string{"const:*", "param:provider.issuerFromForwardedOrHost/#0", "param:provider.issuerFromForwardedOrHost$1$1/#0.Host",
		`ext:httpforwarded.ParseParameter("host")#0[]`}
	ls = vf.Deep(ls)
	r.checkSources("R-VFG", "derived-issuer:sources", w.FnPos(cl), ls, allowed, []string{"const:https", "const:http", "param:provider.issuerFromForwardedOrHost$1$1/#0.Host", `ext:httpforwarded.ParseParameter("host")#0[]`, "param:provider.issuerFromForwardedOrHost/#0"}, false)
	plainFormats := true
	for _, l := range ls.keys() {
		if strings.HasPrefix(l, "const:") && strings.Contains(l, "%") && strings.Contains(strings.ReplaceAll(strings.TrimPrefix(l, "const:"), "%s", ""), "%") {
			plainFormats = false
		}
	}
	for _, l := range ls.keys() {
		if l == "via:fmt.Sprintf" && plainFormats {
			continue // Sprintf with %s verbs only is concatenation
		}
		if strings.HasPrefix(l, "via:") && l != "via:concat" {
			r.Fail("R-VFG", "derived-issuer:"+l, w.FnPos(cl), "the derived issuer passes through "+strings.TrimPrefix(l, "via:")+": it is no longer the plain concatenation scheme + host + path")
		}
	}
	// element 0 of the parsed hosts
	if hf := w.Func("provider.hostFromForwarded"); hf != nil {
		okFirst := true
		n := 0
		for _, ret := range returnsOf(hf) {
			v := ret.Results[0]
			if _, isC := v.(*ssa.Const); isC {
				continue
			}
			n++
			ld, ok := v.(*ssa.UnOp)
			if !ok {
				okFirst = false
				continue
			}
			ia, ok := ld.X.(*ssa.IndexAddr)
			if !ok || !isZeroIndex(ia.Index) {
				okFirst = false
			}
		}
		r.Check(okFirst && n > 0, "R-VFG", "hostFromForwarded:first", w.FnPos(hf), "returns element 0 of the parsed host list", "hostFromForwarded does not return the first host of the header")
		// ... and does so whenever a configured header yields a host: the only conditions on the way to that return are
		// the loop over the configured headers, "the header parsed" and "the list is not empty". A further condition
		// (or a constant one) makes the IdP ignore a forwarded host it was configured to honour.
		for _, ret := range returnsOf(hf) {
			if _, isC := ret.Results[0].(*ssa.Const); isC {
				continue
			}
			bad := ""
			for _, a := range fx.AtomsAtBlock(ret.Block()) {
				c := stripNot(a.Cond)
				if k, isK := c.(*ssa.Const); isK && k.Value != nil {
					if (k.Value.ExactString() == "true") == a.Neg {
						bad = "the return of the forwarded host is guarded by a condition that is constantly false"
					}
					continue
				}
				switch {
				case a.Op == "LT" && strings.HasPrefix(a.B, "len(") && (strings.HasPrefix(a.A, "(phi@") || strings.HasPrefix(a.A, "phi@")): // loop over the headers
				case a.Op == "TRUE" && (strings.HasPrefix(a.A, "next@") || strings.Contains(a.A, "#0")) && !strings.Contains(a.A, "ParseParameter"):
				case a.Op == "NIL" && !a.Neg && strings.HasSuffix(a.A, "httpforwarded.ParseParameter#1"):
				case a.Op == "EMPTY" && a.Neg && strings.HasSuffix(a.A, "httpforwarded.ParseParameter#0"):
				case a.Op == "LT" && !a.Neg && a.A == "const:0" && strings.Contains(a.B, "httpforwarded.ParseParameter#0"):
				case strings.Contains(a.String(), "httpforwarded.ParseParameter"): // another spelling of a test of what was parsed
				default:
					bad = "the forwarded host is returned only under " + a.String() + ": a host the configured header carries can be ignored"
				}
			}
			r.Check(bad == "", "R-GUARD", "hostFromForwarded:uses-first-host", w.InstrPos(ret), "returned whenever a configured header parses to a non-empty host list", bad)
		}
		// headers consulted: exactly the configured list
		lh, hs := vf.CallArgSources(matchFnKey(w, "provider.hostFromForwarded"), 1)
		if len(hs) > 0 {
			r.checkSources("R-VFG", "derived-issuer:headers", w.InstrPos(hs[0]), lh, []string{"param:provider.issuerFromForwardedOrHost/#1.headers"}, []string{"param:provider.issuerFromForwardedOrHost/#1.headers"}, true)
		} else {
			r.Fail("R-VFG", "derived-issuer:headers", w.FnPos(cl), "hostFromForwarded is no longer called with the configured header list")
		}
		// the header values parsed are those of the request
		lhv := cx.newVFlow("hostFromForwarded", hf)
		lp, ps := lhv.CallArgSources(matchCallee("github.com/muhlemmer/httpforwarded.ParseParameter"), 1)
		if len(ps) > 0 {
			r.checkSources("R-VFG", "hostFromForwarded:values", w.InstrPos(ps[0]), lp, []string{"param:provider.hostFromForwarded/#0.Header[]"}, []string{"param:provider.hostFromForwarded/#0.Header[]"}, true)
			ln, _ := lhv.CallArgSources(matchCallee("github.com/muhlemmer/httpforwarded.ParseParameter"), 0)
			r.checkSources("R-VFG", "hostFromForwarded:parameter", w.InstrPos(ps[0]), ln, []string{"const:host"}, []string{"const:host"}, true)
		} else {
			r.Fail("R-VFG", "hostFromForwarded:values", w.FnPos(hf), "httpforwarded.ParseParameter is no longer used")
		}
	} else {
		r.Fail("R-VFG", "hostFromForwarded", "", "anchor not found")
	}
	// IssuerFromHost configures no header; IssuerFromForwardedOrHost starts from Forwarded
	if ih := w.Func("provider.IssuerFromHost"); ih != nil {
		ivf := cx.newVFlow("IssuerFromHost", ih)
		_, st := ivf.FieldStoreSources("provider.issuerConfig", "headers")
		nOwn := 0
		for _, s := range st {
			if s.Parent() == ih {
				nOwn++
			}
		}
		r.Check(nOwn == 0, "R-VFG", "IssuerFromHost:no-headers", w.FnPos(ih), "passes a configuration without forwarding headers", "IssuerFromHost configures forwarding headers: the issuer can then be taken from a client-supplied header")
	}
	// the same facts read off the composition itself, wherever its pieces are computed (scheme and path suffix in
	// helpers of their own, prepared once per configuration, ...): when that reading succeeds the rules that are
	// written for the dynamicIssuer(host, path, flag) shape are not needed
	generic := cx.checkDerivedIssuerGeneric(r)
	if !generic {
		cx.checkIssuerSchemeFlag(r)
		cx.checkDynamicIssuerPaths(r)
		cx.checkIssuerComposition(r)
	}
	cx.checkHeaderOrder(r)
	cx.checkIssuerMiddlewareInstalled(r)
	// scheme chosen by allowInsecure alone; leading slash rule
	if di := w.Func("provider.dynamicIssuer"); di != nil && !generic {
		aps, ok := fx.atomPaths(di, 256)
		bad := ""
		if !ok {
			bad = "too many paths"
		}
		for _, p := range aps {
			for _, a := range p.Atoms {
				switch {
				case a.Op == "TRUE" && a.TA == "<#2 bool>":
				case a.Op == "EMPTY" && a.TA == "<#1 string>", a.Op == "LT" && strings.Contains(a.TA+a.TB, "<#1 string>"):
				case a.Op == "CALL:strings.HasPrefix" && strings.HasPrefix(a.TA, "<#1 string>;const:/"):
				default:
					bad = "dynamicIssuer branches on " + a.String() + ": the issuer depends on something other than the insecure flag and the shape of the configured path"
				}
			}
		}
		r.Check(bad == "", "R-GUARD", "dynamicIssuer:branches", w.FnPos(di), "branches only on allowInsecure and on the configured path's leading slash", bad)
		dvf := cx.newVFlow("dynamicIssuer", di)
		dl := LabelSet{}
		for _, ret := range returnsOf(di) {
			dl.addAll(dvf.Labels(ret.Results[0]), 0)
		}
		dl = dvf.Deep(dl)
		for _, l := range dl.keys() {
			// the literal pieces: only scheme, separator and slash (possibly inside a %s-only format)
			if strings.HasPrefix(l, "const:") {
				lit := strings.ReplaceAll(strings.TrimPrefix(l, "const:"), "%s", "")
				switch lit {
				case "https", "http", "://", "/", "", "zero":
				default:
					r.Fail("R-VFG", "dynamicIssuer:literal", w.FnPos(di), "the derived issuer contains the literal "+lit)
				}
			}
		}
		r.checkSources("R-VFG", "dynamicIssuer:sources", w.FnPos(di), dl, []string{"const:*", "param:provider.dynamicIssuer/#0", "param:provider.dynamicIssuer/#1"}, []string{"const:https", "const:http", "param:provider.dynamicIssuer/#0", "param:provider.dynamicIssuer/#1"}, false)
	} else if !generic {
		r.Fail("R-GUARD", "dynamicIssuer", "", "anchor not found")
	}
	r.Min("R-VFG", 5)
}

// checkDerivedIssuerGeneric: every value the per-request issuer closure returns is
//
//	S(flag) + "://" + host + P(path)
//
// where S is a function of one bool that returns "http" exactly when it is true and "https" otherwise, flag is the
// insecure flag the factory closure was called with, host is the first forwarded host on a path that found one and the
// request's Host on a path that found none, P is a function of one string that returns it unchanged when it is empty or
// starts with "/" and "/" + it otherwise, and path is the configured path. Returns false (recording nothing) when the
// composition is not of this shape - the rules written for dynamicIssuer(host, path, flag) then decide.
func (cx *Ctx) checkDerivedIssuerGeneric(r *Report) bool {
	w, fx := cx.W, cx.Fx
	cl := w.Func("provider.issuerFromForwardedOrHost$1$1")
	vf := cx.vflow("provider.issuerFromForwardedOrHost")
	if cl == nil || vf == nil {
		return false
	}
	fwd := `ext:httpforwarded.ParseParameter("host")#0[]`
	// (what holds where the helper is called is not part of what the helper decides)
	ownAtoms := func(as []Atom, f *ssa.Function) []Atom {
		var out []Atom
		for _, a := range as {
			if a.Cond != nil && a.Cond.Parent() != nil && a.Cond.Parent() != f {
				continue
			}
			out = append(out, a)
		}
		return out
	}
	isSchemeFn := func(f *ssa.Function) bool {
		if f == nil || f.Blocks == nil || len(f.Params) != 1 || f.Signature.Results().Len() != 1 {
			return false
		}
		aps, ok := fx.atomPaths(f, 16)
		if !ok || len(aps) != 2 {
			return false
		}
		seen := map[string]bool{}
		for i := range aps {
			p := &aps[i]
			p.Atoms = ownAtoms(p.Atoms, f)
			k, isK := constString(fx.retVal(p, 0))
			if !isK || len(p.Atoms) != 1 || p.Atoms[0].Op != "TRUE" || stripNot(p.Atoms[0].Cond) != ssa.Value(f.Params[0]) {
				return false
			}
			if k == "http" && !p.Atoms[0].Neg || k == "https" && p.Atoms[0].Neg {
				seen[k] = true
			} else {
				return false
			}
		}
		return seen["http"] && seen["https"]
	}
	isPathFn := func(f *ssa.Function) bool {
		if f == nil || f.Blocks == nil || len(f.Params) != 1 || f.Signature.Results().Len() != 1 {
			return false
		}
		aps, ok := fx.atomPaths(f, 16)
		if !ok || len(aps) == 0 {
			return false
		}
		sawSlash, sawPlain := false, false
		for i := range aps {
			p := &aps[i]
			rv := fx.retVal(p, 0)
			empty, nonEmpty, hasPre, noPre := false, false, false, false
			for _, a := range ownAtoms(p.Atoms, f) {
				switch {
				case a.Op == "EMPTY":
					if a.Neg {
						nonEmpty = true
					} else {
						empty = true
					}
				case a.Op == "LT" && strings.Contains(a.String(), "len("): // len(path) > 0
					nonEmpty = nonEmpty || a.Neg == false && strings.HasPrefix(a.A, "const:0") || a.Neg && strings.HasPrefix(a.B, "const:0")
				case strings.HasPrefix(a.Op, "CALL:strings.HasPrefix") && strings.Contains(a.String(), "const:/"):
					if a.Neg {
						noPre = true
					} else {
						hasPre = true
					}
				default:
					return false
				}
			}
			if rv == ssa.Value(f.Params[0]) {
				if !(empty || hasPre) {
					return false
				}
				sawPlain = true
				continue
			}
			parts := mergeLits(cx.strParts(rv))
			if len(parts) == 2 && parts[0].IsLit && parts[0].Lit == "/" && parts[1].Val == ssa.Value(f.Params[0]) && nonEmpty && noPre {
				sawSlash = true
				continue
			}
			return false
		}
		return sawSlash && sawPlain
	}
	callOf := func(v ssa.Value) (*ssa.Function, ssa.Value) {
		c, ok := v.(*ssa.Call)
		if !ok || len(c.Call.Args) != 1 {
			return nil, nil
		}
		return calleeOf(c), c.Call.Args[0]
	}
	onlyLabel := func(v ssa.Value, want string) bool {
		ls := vf.Labels(v).leaves()
		return len(ls) == 1 && ls[0] == want
	}
	nAlt, sawFwd, sawHost := 0, false, false
	type verdict struct{ key, pos string }
	var oks []verdict
	for _, ret := range returnsOf(cl) {
		if len(ret.Results) != 1 {
			return false
		}
		for _, alt := range cx.strPartAlts(ret.Results[0], ret) {
			parts := mergeLits(alt.Parts)
			if len(parts) != 4 || parts[0].IsLit || !parts[1].IsLit || parts[1].Lit != "://" || parts[2].IsLit || parts[3].IsLit {
				return false
			}
			sf, sarg := callOf(parts[0].Val)
			pf, parg := callOf(parts[3].Val)
			if !isSchemeFn(sf) || !isPathFn(pf) {
				return false
			}
			if !onlyLabel(sarg, "param:provider.issuerFromForwardedOrHost$1/#0") || !onlyLabel(parg, "param:provider.issuerFromForwardedOrHost/#0") {
				return false
			}
			// (the host may be chosen by a helper of its own - `c.requestHost(r)`: each of its returns is one alternative,
			// under what holds at that return)
			type hostAlt struct {
				val   ssa.Value
				atoms []Atom
				tag   string
			}
			hosts := []hostAlt{{parts[2].Val, nil, ""}}
			if hc, isC := parts[2].Val.(*ssa.Call); isC {
				if g := calleeOf(hc); g != nil && g.Blocks != nil && g.Pkg != nil && isModulePath(g.Pkg.Pkg.Path()) && g.Signature.Results().Len() == 1 && len(returnsOf(g)) >= 2 {
					hosts = nil
					for i, gr := range returnsOf(g) {
						hosts = append(hosts, hostAlt{gr.Results[0], fx.AtomsAt(gr), fmt.Sprintf("/h%d", i)})
					}
				}
			}
			for _, ha := range hosts {
				fromFwd, fromHost := false, false
				for _, l := range vf.Labels(ha.val).leaves() {
					switch {
					case l == fwd:
						fromFwd = true
					case strings.HasSuffix(l, "/#0.Host"):
						fromHost = true
					case l == "const:" || l == "const:zero":
					default:
						return false
					}
				}
				found, notFound := false, false
				for _, a := range append(append(append([]Atom{}, alt.Atoms...), fx.AtomsAt(ret)...), ha.atoms...) {
					if strings.Contains(a.A, "hostFromForwarded#1") || strings.Contains(a.String(), "hostFromForwarded") {
						if a.Neg {
							notFound = true
						} else {
							found = true
						}
					}
				}
				if fromFwd && !found || fromHost && !fromFwd && !notFound || fromFwd && fromHost {
					return false
				}
				sawFwd = sawFwd || fromFwd
				sawHost = sawHost || fromHost
				nAlt++
				oks = append(oks, verdict{"derived-issuer:composition@" + w.InstrPos(ret) + alt.Tag + ha.tag, w.InstrPos(ret)})
			}
		}
	}
	if nAlt < 2 || !sawFwd || !sawHost {
		return false
	}
	for _, v := range oks {
		r.Ok("R-VFG", v.key, v.pos, "scheme(flag) + :// + host (forwarded if found, else the request's) + path suffix(configured path), scheme and suffix computed by functions of the flag / the path alone")
	}
	r.Ok("R-VFG", "derived-issuer:composition#sites", "", fmt.Sprintf("%d alternatives of the composition", nAlt))
	return true
}

// checkIssuerSchemeFlag: the flag that selects the scheme of a derived issuer is the configured one, unchanged, at
// every call of dynamicIssuer: the issuer of a host then does not vary with anything else a request carries
// (TLS state, headers), so the entityID served to one request is the Issuer sent in reply to another.
// checkDynamicIssuerPaths: on every path of dynamicIssuer the result is <scheme>://<host><path> where the scheme
// constant is "http" exactly when the insecure flag is set (else "https"), and the path gets its leading "/" exactly
// when it is non-empty and lacks one. The values a phi takes are read off the path (no execution).
func (cx *Ctx) checkDynamicIssuerPaths(r *Report) {
	w, fx := cx.W, cx.Fx
	di := w.Func("provider.dynamicIssuer")
	if di == nil || len(di.Params) < 3 {
		r.Fail("R-GUARD", "dynamicIssuer:paths", "", "anchor not found")
		return
	}
	aps, ok := fx.atomPaths(di, 512)
	if !ok || len(aps) == 0 {
		r.Undecided("R-GUARD", "dynamicIssuer:paths", w.FnPos(di), "paths not enumerable")
		return
	}
	onPath := func(p *APath, v ssa.Value) ssa.Value {
		for d := 0; d < 6; d++ {
			phi, isPhi := v.(*ssa.Phi)
			if !isPhi {
				return v
			}
			next := ssa.Value(nil)
			for bi, b := range p.Blocks {
				if b == phi.Block() && bi > 0 {
					for j, pr := range phi.Block().Preds {
						if pr == p.Blocks[bi-1] {
							next = phi.Edges[j]
						}
					}
				}
			}
			if next == nil {
				return v
			}
			v = next
		}
		return v
	}
	// the ordered pieces of the result (concatenation, Sprintf, strings.Builder alike), each phi replaced by the
	// value it has on the path
	var leaves func(p *APath, v ssa.Value, out *[]string, depth int)
	leaves = func(p *APath, v ssa.Value, out *[]string, depth int) {
		v = onPath(p, v)
		for _, part := range mergeLits(cx.strParts(v)) {
			if part.IsLit {
				*out = append(*out, "const:"+part.Lit)
				continue
			}
			v2 := onPath(p, part.Val)
			if v2 != part.Val && depth < 6 {
				leaves(p, v2, out, depth+1)
				continue
			}
			if k, isK := constString(v2); isK {
				*out = append(*out, "const:"+k)
				continue
			}
			*out = append(*out, fx.path(v2))
		}
	}
	pathPar, flagPar := fx.path(di.Params[1]), fx.path(di.Params[2])
	bad := ""
	sawSlash, sawHTTP := false, false
	for i := range aps {
		p := &aps[i]
		if p.Ret == nil || len(p.Ret.Results) != 1 {
			continue
		}
		var got0 []string
		leaves(p, p.Ret.Results[0], &got0, 0)
		// the scheme may come from a helper of the flag alone (`issuerScheme(allowInsecure)`), http exactly when the flag
		// is set: then it is right whatever the flag is, and this function does not branch on the flag
		schemeByHelper := false
		for _, part := range mergeLits(cx.strParts(onPath(p, p.Ret.Results[0]))) {
			if part.IsLit {
				continue
			}
			if sc, isC := part.Val.(*ssa.Call); isC && len(sc.Call.Args) == 1 && sc.Call.Args[0] == ssa.Value(di.Params[2]) && cx.isIssuerSchemeFn(calleeOf(sc)) {
				schemeByHelper = true
				for gi := range got0 {
					if got0[gi] == fx.path(sc) {
						got0[gi] = "const:https"
					}
				}
			}
			break
		}
		insecure, nonEmpty, hasPrefix, prefixKnown := false, false, false, false
		for _, a := range p.Atoms {
			switch {
			case a.Op == "TRUE" && a.A == flagPar:
				insecure = !a.Neg
			case a.Op == "EMPTY" && a.A == pathPar:
				nonEmpty = a.Neg
			case strings.HasPrefix(a.Op, "CALL:strings.HasPrefix"):
				hasPrefix, prefixKnown = !a.Neg, true
			}
		}
		// expected leaves: scheme, "://", host, ["/"], path
		want := []string{"const:https", "const:://", fx.path(di.Params[0])}
		if insecure {
			want[0] = "const:http"
		}
		if nonEmpty && prefixKnown && !hasPrefix {
			want = append(want, "const:/")
		}
		want = append(want, pathPar)
		// adjacent literals are one piece of text: compare the texts
		join := func(xs []string) string {
			t := ""
			for _, x := range xs {
				if strings.HasPrefix(x, "const:") {
					t += strings.TrimPrefix(x, "const:")
				} else {
					t += "<" + x + ">"
				}
			}
			return t
		}
		got := []string{join(got0)}
		want = []string{join(want)}
		if strings.Join(got, " + ") != strings.Join(want, " + ") {
			bad = fmt.Sprintf("under [%s] the issuer is %s, expected %s", atomsString(p.Atoms), strings.Join(got, " + "), strings.Join(want, " + "))
		}
		if strings.Contains(got[0], ">/<") {
			sawSlash = true
		}
		if strings.HasPrefix(got[0], "http://") || schemeByHelper {
			sawHTTP = true
		}
	}
	if bad == "" && !sawSlash {
		bad = "no path gives a configured path that lacks it its leading slash"
	}
	if bad == "" && !sawHTTP {
		bad = "no path yields an http issuer: insecure mode has no effect on the derived issuer"
	}
	r.Check(bad == "", "R-GUARD", "dynamicIssuer:paths", w.FnPos(di), fmt.Sprintf("%d paths: scheme http iff insecure, \"/\" added iff the path is non-empty and lacks it", len(aps)), bad)
}

// checkIssuerComposition: the pieces of the derived issuer sit in their places: dynamicIssuer(host, path, flag) is
// called with a host (the first forwarded host on the path that found one, the request's Host on the path that found
// none) and the configured path - not swapped; and the option that configures custom header names stores them.
func (cx *Ctx) checkIssuerComposition(r *Report) {
	w, fx := cx.W, cx.Fx
	vf := cx.vflow("provider.issuerFromForwardedOrHost")
	di := w.Func("provider.dynamicIssuer")
	if vf == nil || di == nil {
		r.Fail("R-VFG", "derived-issuer:composition", "", "anchors not found")
		return
	}
	fwd := `ext:httpforwarded.ParseParameter("host")#0[]`
	n := 0
	for _, c := range w.callsTo(vf.scope, func(c ssa.CallInstruction) bool { return calleeOf(c) == di }) {
		args := c.Common().Args
		// the host may be chosen before a single call (`host := r.Host; if h, ok := forwarded(); ok { host = h }`): each
		// alternative is judged with what holds where it is chosen
		type hostAlt struct {
			val   ssa.Value
			atoms []Atom
			tag   string
		}
		alts := []hostAlt{{args[0], fx.AtomsAt(c.(ssa.Instruction)), ""}}
		if phi, isPhi := args[0].(*ssa.Phi); isPhi {
			alts = nil
			for j, e := range phi.Edges {
				if j < len(phi.Block().Preds) {
					alts = append(alts, hostAlt{e, fx.AtomsOnEdge(phi.Block().Preds[j], phi.Block()), fmt.Sprintf("/%d", j)})
				}
			}
		}
		// ... or by a helper of its own (`forwardedOrRequestHost(r, headers)`): each of its returns, under what holds there
		if hc, isC := args[0].(*ssa.Call); isC {
			if g := calleeOf(hc); g != nil && g.Blocks != nil && g.Pkg != nil && isModulePath(g.Pkg.Pkg.Path()) && g.Signature.Results().Len() == 1 && len(returnsOf(g)) >= 2 {
				alts = nil
				for j, gr := range returnsOf(g) {
					alts = append(alts, hostAlt{gr.Results[0], fx.AtomsAt(gr), fmt.Sprintf("/h%d", j)})
				}
			}
		}
		pathL := vf.Labels(args[1]).leaves()
		for _, alt := range alts {
			n++
			key := "derived-issuer:composition@" + w.InstrPos(c) + alt.tag
			hostL := vf.Labels(alt.val).leaves()
			bad := ""
			fromFwd, fromHost := false, false
			for _, l := range hostL {
				switch {
				case l == fwd:
					fromFwd = true
				case strings.HasSuffix(l, "/#0.Host"):
					fromHost = true
				case l == "const:" || l == "const:zero":
				default:
					bad = "the host position of dynamicIssuer receives " + l
				}
			}
			for _, l := range pathL {
				if l != "param:provider.issuerFromForwardedOrHost/#0" {
					bad = "the path position of dynamicIssuer receives " + l + " instead of the configured path"
				}
			}
			// which host on which path: the forwarded one only where hostFromForwarded reported one, the request's only where it did not
			found, notFound := false, false
			for _, a := range alt.atoms {
				if strings.Contains(a.A, "hostFromForwarded#1") || strings.Contains(a.String(), "hostFromForwarded") {
					if a.Neg {
						notFound = true
					} else {
						found = true
					}
				}
			}
			if bad == "" && fromFwd && !found {
				bad = "a forwarded host is used on a path that has not found hostFromForwarded to report one"
			}
			if bad == "" && fromHost && !fromFwd && !notFound {
				bad = "the request's Host is used on a path that has not found the forwarding headers empty: a forwarded host that is present is ignored"
			}
			r.Check(bad == "", "R-VFG", key, w.InstrPos(c), "host in the host position (forwarded if found, else the request's), configured path in the path position", bad)
		}
	}
	r.Check(n >= 2, "R-VFG", "derived-issuer:composition#sites", "", fmt.Sprintf("%d host alternatives at the dynamicIssuer call sites", n), fmt.Sprintf("only %d host alternative(s) at the dynamicIssuer call sites (one for a forwarded host, one for the request's Host expected)", n))
	// the custom header option stores what it is given
	if wo := w.Func("provider.WithIssuerFromCustomHeaders"); wo != nil {
		ovf := cx.newVFlow("custom-headers", wo)
		ls, sites := ovf.FieldStoreSources("provider.issuerConfig", "headers")
		if len(sites) == 0 {
			r.Fail("R-VFG", "issuer-headers:configured", w.FnPos(wo), "WithIssuerFromCustomHeaders no longer stores the header names into the issuer configuration: the configured headers are ignored")
		} else {
			// (the names may be copied into a new slice first: look at what the stored container holds)
			r.checkSources("R-VFG", "issuer-headers:configured", w.InstrPos(sites[0]), ovf.Deep(ls), []string{"param:provider.WithIssuerFromCustomHeaders/#0*", "alloc:*", "const:*"}, []string{"param:provider.WithIssuerFromCustomHeaders/#0*"}, false)
		}
	}
}

// checkHeaderOrder: "the first host of the configured forwarding headers" means configured order. No function of
// the issuer configuration code re-orders or thins out a list of header names (sort, compact, reverse): the list a
// request is judged by is the one configured, element for element.
// checkIssuerMiddlewareInstalled: the derived issuer reaches the handlers only through the request context, which the
// issuer interceptor fills. CreateRouter must install it on every path: a router.Use call that lies on all paths to
// the return and whose argument leads to (*IssuerInterceptor).setIssuerCtx, fed with the provider's issuerFromRequest.
func (cx *Ctx) checkIssuerMiddlewareInstalled(r *Report) {
	w, fx := cx.W, cx.Fx
	cr := w.Func("provider.CreateRouter")
	set := w.Func("provider.(*IssuerInterceptor).setIssuerCtx")
	if cr == nil || set == nil {
		r.Fail("R-WHO", "issuer-middleware", "", "anchor provider.CreateRouter / setIssuerCtx not found")
		return
	}
	ok := false
	for _, c := range callsIn(cr) {
		if calleeName(c) != "(*github.com/gorilla/mux.Router).Use" {
			continue
		}
		in := c.(ssa.Instruction)
		uncond := true
		for _, ret := range returnsOf(cr) {
			if ret.Block() != in.Block() && reachAvoidingBlock(cr.Blocks[0], ret.Block(), in.Block()) && in.Block() != cr.Blocks[0] {
				uncond = false
			}
		}
		if !uncond {
			continue
		}
		// what is installed leads to setIssuerCtx
		sc := map[*ssa.Function]bool{}
		for _, a := range c.Common().Args[1:] {
			tg, _ := fx.funcTargets(a)
			for _, f := range tg {
				w.refClosure(f, sc)
			}
			if call, isCall := a.(*ssa.Call); isCall {
				if f := calleeOf(call); f != nil {
					w.refClosure(f, sc)
				}
			}
			if sl, isSl := a.(*ssa.Slice); isSl {
				// variadic argument list: the elements stored into the backing array
				if al, isAl := sl.X.(*ssa.Alloc); isAl {
					for _, ref := range nonDebugRefs(al) {
						if ia, isIA := ref.(*ssa.IndexAddr); isIA {
							for _, r2 := range nonDebugRefs(ia) {
								if st, isSt := r2.(*ssa.Store); isSt {
									if call, isCall := st.Val.(*ssa.Call); isCall {
										if f := calleeOf(call); f != nil {
											w.refClosure(f, sc)
										}
									}
									tg, _ := fx.funcTargets(st.Val)
									for _, f := range tg {
										w.refClosure(f, sc)
									}
								}
							}
						}
					}
				}
			}
		}
		if sc[set] {
			ok = true
		}
	}
	r.Check(ok, "R-WHO", "issuer-middleware", w.FnPos(cr), "CreateRouter installs the issuer interceptor for every route", "CreateRouter does not (unconditionally) install a middleware that reaches setIssuerCtx: handlers see an empty issuer, not the one derived from the request")
}

// isOptionFunc: fn has the shape of a provider Option: func(*Provider) error.
func isOptionFunc(fn *ssa.Function) bool {
	sig := fn.Signature
	if sig.Recv() != nil || sig.Params().Len() != 1 || sig.Results().Len() != 1 || !isErrorType(sig.Results().At(0).Type()) {
		return false
	}
	return typeKey(sig.Params().At(0).Type()) == "provider.Provider" && len(fn.FreeVars) == 0 || typeKey(sig.Params().At(0).Type()) == "provider.Provider"
}

func (cx *Ctx) checkHeaderOrder(r *Report) {
	w := cx.W
	reorder := map[string]bool{"slices.Sort": true, "slices.SortFunc": true, "slices.SortStableFunc": true, "slices.Reverse": true, "slices.Compact": true, "slices.CompactFunc": true,
		"sort.Strings": true, "sort.Slice": true, "sort.SliceStable": true, "sort.Sort": true, "sort.Stable": true, "slices.DeleteFunc": true, "slices.Delete": true}
	scope := map[*ssa.Function]bool{}
	n := 0
	for _, fn := range w.Funcs {
		if fn.Pkg == nil || shortPkg(fn.Pkg.Pkg.Path()) != "provider" {
			continue
		}
		root := fn
		for root.Parent() != nil {
			root = root.Parent()
		}
		// the functions that build or use an issuerConfig
		uses := false
		for _, b := range fn.Blocks {
			for _, in := range b.Instrs {
				if fa, ok := in.(*ssa.FieldAddr); ok && fieldOwner(fa.X.Type()) == "provider.issuerConfig" {
					uses = true
				}
			}
		}
		if uses {
			scope[root] = true
		}
	}
	for fn := range scope {
		sc := map[*ssa.Function]bool{}
		w.refClosure(fn, sc)
		for g := range sc {
			for _, c := range callsIn(g) {
				name := calleeName(c)
				if i := strings.Index(name, "["); i >= 0 {
					name = name[:i] // generic instance
				}
				if !reorder[name] || len(c.Common().Args) == 0 {
					continue
				}
				if t, ok := c.Common().Args[0].Type().Underlying().(*types.Slice); !ok || !isStringType(t.Elem()) {
					continue
				}
				n++
				r.Fail("R-VFG", "issuer-headers:order@"+w.FuncKey(g), w.InstrPos(c), "a list of header names is re-ordered or thinned out with "+name+" while the issuer configuration is built: the host is then taken from the first header in that order, not from the first configured one")
			}
		}
	}
	if n == 0 {
		r.Ok("R-VFG", "issuer-headers:order", "", fmt.Sprintf("no re-ordering of header lists in the %d functions that build or use the issuer configuration", len(scope)))
	}
}

func (cx *Ctx) checkIssuerSchemeFlag(r *Report) {
	w := cx.W
	fo := w.Func("provider.issuerFromForwardedOrHost")
	if fo == nil {
		r.Fail("R-VFG", "derived-issuer:scheme-flag", "", "anchor not found")
		return
	}
	vf := cx.vflow("provider.issuerFromForwardedOrHost")
	ls, sites := vf.CallArgSources(matchFnKey(w, "provider.dynamicIssuer"), 2)
	if len(sites) == 0 {
		r.Fail("R-VFG", "derived-issuer:scheme-flag", w.FnPos(fo), "dynamicIssuer is no longer called from the issuer derivation")
		return
	}
	flag := "param:provider.issuerFromForwardedOrHost$1/#0"
	r.checkSources("R-VFG", "derived-issuer:scheme-flag", w.InstrPos(sites[0]), ls, []string{flag}, []string{flag}, true)
}

// isIssuerSchemeFn: f is a function of one boolean that returns "http" exactly when it is set and "https" otherwise
// (what holds where it is called is not part of what it decides).
func (cx *Ctx) isIssuerSchemeFn(f *ssa.Function) bool {
	fx := cx.Fx
	if f == nil || f.Blocks == nil || len(f.Params) != 1 || f.Signature.Results().Len() != 1 {
		return false
	}
	aps, ok := fx.atomPaths(f, 16)
	if !ok || len(aps) != 2 {
		return false
	}
	seen := map[string]bool{}
	for i := range aps {
		p := &aps[i]
		var own []Atom
		for _, a := range p.Atoms {
			if a.Cond != nil && a.Cond.Parent() != nil && a.Cond.Parent() != f {
				continue
			}
			own = append(own, a)
		}
		k, isK := constString(fx.retVal(p, 0))
		if !isK || len(own) != 1 || own[0].Op != "TRUE" || stripNot(own[0].Cond) != ssa.Value(f.Params[0]) {
			return false
		}
		if k == "http" && !own[0].Neg || k == "https" && own[0].Neg {
			seen[k] = true
		} else {
			return false
		}
	}
	return seen["http"] && seen["https"]
}

package main

import (
	"fmt"
	"go/token"
	"go/types"
	"strings"

	"golang.org/x/tools/go/ssa"
)

func init() { register("C04", checkC04) }

// callChainOf renders how a value is computed from a root through module / library calls:
// "string<-xml.DeflateAndBase64#0<-xml.Marshal#0<-<root path>".
func (cx *Ctx) callChainOf(v ssa.Value) string { return cx.callChainOfSub(v, nil, 0) }

// callChainOfSub: sub maps the parameters of a helper whose body is being described to the arguments it was given.
func (cx *Ctx) callChainOfSub(v ssa.Value, sub map[ssa.Value]ssa.Value, depth int) string {
	var parts []string
	for i := 0; i < 12; i++ {
		if a, ok := sub[v]; ok {
			v = a
			continue
		}
		// a helper of the module that computes the value (`deflateResponse(resp)`): described by what it returns,
		// with its parameter standing for the argument - the pipeline is the same wherever its steps are written
		if g, idx, args := moduleCallOf(v); g != nil && depth < 3 && len(args) == len(g.Params) {
			var inner []string
			for _, ret := range returnsOf(g) {
				if idx >= len(ret.Results) {
					continue
				}
				rv := ret.Results[idx]
				if k, isK := rv.(*ssa.Const); isK && (k.Value == nil || k.Value.ExactString() == `""`) {
					continue // the zero value returned next to an error
				}
				m := map[ssa.Value]ssa.Value{}
				for j, p := range g.Params {
					m[p] = args[j]
				}
				for k2, v2 := range sub {
					m[k2] = v2
				}
				c := cx.callChainOfSub(rv, m, depth+1)
				dup := false
				for _, o := range inner {
					if o == c {
						dup = true
					}
				}
				if !dup {
					inner = append(inner, c)
				}
			}
			if len(inner) == 1 {
				return strings.Join(append(parts, inner[0]), "<-")
			}
		}
		switch x := v.(type) {
		case *ssa.Convert:
			parts = append(parts, "convert")
			v = x.X
			continue
		case *ssa.ChangeType:
			v = x.X
			continue
		case *ssa.MakeInterface:
			v = x.X
			continue
		case *ssa.Extract:
			if c, ok := x.Tuple.(*ssa.Call); ok && len(c.Call.Args) > 0 {
				parts = append(parts, fmt.Sprintf("%s#%d", shortCallee(calleeName(c)), x.Index))
				v = c.Call.Args[len(c.Call.Args)-1]
				if len(c.Call.Args) > 1 && !strings.Contains(calleeName(c), "Marshal") && !strings.Contains(calleeName(c), "DeflateAndBase64") {
					return strings.Join(parts, "<-") + "<-?"
				}
				continue
			}
		case *ssa.Call:
			if len(x.Call.Args) == 1 {
				parts = append(parts, shortCallee(calleeName(x))+"#0")
				v = x.Call.Args[0]
				continue
			}
		case *ssa.Parameter:
			// the parameter of a function with one call site stands for the argument given there
			if args := cx.Fx.argsOf[x]; len(args) == 1 {
				v = args[0]
				continue
			}
		}
		break
	}
	root := "other"
	if n := namedOf(v.Type()); n != nil && typeKey(v.Type()) == "samlp.ResponseType" {
		root = "the response"
	} else {
		root = cx.Fx.path(v)
	}
	return strings.Join(append(parts, root), "<-")
}

// moduleCallOf: v is result #idx of a static call to a module function with a body (not one of the two encoding
// steps the pipeline is made of, which are named as they are).
func moduleCallOf(v ssa.Value) (*ssa.Function, int, []ssa.Value) {
	var c *ssa.Call
	idx := 0
	switch x := v.(type) {
	case *ssa.Extract:
		c, _ = x.Tuple.(*ssa.Call)
		idx = x.Index
	case *ssa.Call:
		c = x
	}
	if c == nil || c.Call.IsInvoke() {
		return nil, 0, nil
	}
	g := calleeOf(c)
	if g == nil || g.Blocks == nil || g.Pkg == nil || !isModulePath(g.Pkg.Pkg.Path()) {
		return nil, 0, nil
	}
	if n := calleeName(c); strings.HasSuffix(n, "xml.Marshal") || strings.HasSuffix(n, "xml.DeflateAndBase64") {
		return nil, 0, nil
	}
	return g, idx, c.Call.Args
}

func checkC04(cx *Ctx, r *Report) {
	w, fx := cx.W, cx.Fx
	cx.checkSigningContextMethod(r)
	cx.checkKeyDescriptorCertificate(r)
	cx.checkRecoverReports(r, cx.handlerScope())
	cx.checkNoIndentedEncoding(r)
	// what is signed and what is sent are two runs of the encoder over the same value: they agree only for encoding/xml's own encoding
	cx.checkNoCustomMarshallers(r)
	// storage is asked with the request's context (which carries the issuer / tenant in effect): keys, providers and
	// users are those of this request
	cx.checkStorageContext(r)
	cx.checkStorageIsTheApplications(r)
	r.Clauses = []string{
		"sign before send: a Success response leaves loginResponse only after createSignature returned nil; the attribute-query response is signed in a step before the only emit; signed metadata is returned only after signature.Create returned nil; after a signing call nothing is stored into the signed message except the signature itself",
		"sign table = send table: the bindings with a delivery case in sendBackResponse are exactly those with a signing case in createSignature; a delivery path that does not discriminate the binding (raw XML body when no consumer URL is known) can only carry the enveloped signature, so it must not be reachable for a binding whose signature is detached",
		"signed octets = sent octets for Redirect: SAMLResponse, RelayState and SigAlg handed to BuildRedirectQuery at the signing site and at the sending site are the same pipeline over the same values (DeflateAndBase64(Marshal(response)), Response.RelayState, the raw algorithm URI), the signature is sent as base64 of the raw signature, and BuildRedirectQuery is the one place that URL-encodes",
		"the canonicaliser used for enveloped signatures escapes character data and attribute values it copies from the decoder",
	}
	r.NotDec = []string{"correctness of exclusive C14N, digest and RSA computations for all strings (run-time values)", "agreement between encoding/xml and a verifier's parser", "that storage returns a matching certificate / key pair"}
	r.Assume = []string{"xml.Marshal and DeflateAndBase64 are deterministic (the same response marshals to the same octets at the signing and at the sending site)"}

	// --- sign before send ---------------------------------------------------------------------------
	// (loginResponse's return discipline is C01's clause; here: stores after signing)
	msgTypes := map[string]bool{"samlp.ResponseType": true, "saml.AssertionType": true, "md.EntityDescriptorType": true, "saml.SubjectType": true, "saml.ConditionsType": true, "saml.AttributeStatementType": true, "saml.AttributeType": true, "saml.SubjectConfirmationDataType": true, "md.IDPSSODescriptorType": true, "md.AttributeAuthorityDescriptorType": true, "md.OrganizationType": true, "md.ContactType": true, "md.KeyDescriptorType": true, "md.EndpointType": true}
	isSign := func(c ssa.CallInstruction) bool {
		if f := calleeOf(c); f != nil {
			switch w.FuncKey(f) {
			case "signature.Create", "provider.createSignature", "provider.createPostSignature", "provider.createRedirectSignature":
				return true
			}
		}
		return false
	}
	nSignSites := 0
	for _, fn := range w.sortedFuncs(cx.handlerScope()) {
		for _, c := range callsIn(fn) {
			if !isSign(c) {
				continue
			}
			nSignSites++
			key := "after-signing@" + w.FuncKey(fn) + ":" + shortCallee(calleeName(c))
			bad := ""
			for _, b := range blocksFrom(c.Block()) {
				for _, in := range b.Instrs {
					st, ok := in.(*ssa.Store)
					if !ok {
						continue
					}
					if b == c.Block() && instrIndex(st) < instrIndex(c) {
						continue
					}
					fa, ok := st.Addr.(*ssa.FieldAddr)
					if !ok {
						continue
					}
					o, f := fieldOwner(fa.X.Type()), fname(fieldVar(fa.X.Type(), fa.Field))
					if msgTypes[o] && f != "Signature" {
						bad = fmt.Sprintf("%s.%s is written at %s after the message was signed: the signature no longer covers what is sent", o, f, w.InstrPos(st))
					}
				}
			}
			r.Check(bad == "", "R-ORDER", key, w.InstrPos(c), "only the signature itself is attached after signing", bad)
		}
	}
	// a signature that could not be made is an error all the way up: in the signing code every call that reports an
	// error - the xmlsig / goxmldsig signers included - has it tested and propagated (a swallowed signer error sends
	// the message with a nil signature)
	{
		ss := map[*ssa.Function]bool{}
		for _, k := range []string{"provider.createSignature", "signature.Create", "signature.CreateRedirect", "signature.GetSigner", "signature.GetSigningContextAndSigAlg", "provider.(*Provider).GetMetadata"} {
			if f := w.Func(k); f != nil {
				w.refClosure(f, ss)
			}
		}
		cx.errAll = true
		for _, f := range w.sortedFuncs(ss) {
			res := f.Signature.Results()
			if res.Len() == 0 || !isErrorType(res.At(res.Len()-1).Type()) || f.Pkg == nil {
				continue
			}
			if pk := shortPkg(f.Pkg.Pkg.Path()); pk != "provider" && pk != "signature" {
				continue
			}
			cx.checkErrPropagation(r, "R-ERR", "signing:"+w.FuncKey(f), f)
		}
		cx.errAll = false
	}
	// the signer is set up with the configured signature algorithm in the signature position and a digest method in
	// the digest position (swapped, every signature names an algorithm pair no verifier accepts); the algorithm check
	// accepts only the known RSA methods
	if gs := w.Func("signature.GetSigner"); gs != nil {
		gvf := cx.newVFlow("GetSigner", gs)
		ls, sa := gvf.FieldStoreSources("xmlsig.SignerOptions", "SignatureAlgorithm")
		if len(sa) > 0 {
			r.checkSources("R-VFG", "GetSigner:SignatureAlgorithm", w.InstrPos(sa[0]), ls, []string{"param:signature.GetSigner/#2"}, []string{"param:signature.GetSigner/#2"}, true)
		}
		ld, sd := gvf.FieldStoreSources("xmlsig.SignerOptions", "DigestAlgorithm")
		if len(sd) > 0 {
			r.checkSources("R-VFG", "GetSigner:DigestAlgorithm", w.InstrPos(sd[0]), ld, []string{"const:http://www.w3.org/2001/04/xmlenc#sha*", "const:http://www.w3.org/2000/09/xmldsig#sha1", "const:http://www.w3.org/2001/04/xmldsig-more#sha*"}, nil, true)
		}
		r.Check(len(sa) > 0 && len(sd) > 0, "R-VFG", "GetSigner:options", w.FnPos(gs), "signature and digest algorithm are set", "GetSigner no longer sets the signature / digest algorithm of the signer")
	}
	if iv := w.Func("signature.isValidSignatureAlgorithm"); iv != nil {
		aps, okp := fx.atomPaths(iv, 256)
		bad := ""
		nOK := 0
		for i := range aps {
			p := &aps[i]
			if isNil, _ := fx.errNilness(p, fx.retVal(p, 0)); !isNil {
				continue
			}
			nOK++
			matched := false
			for _, a := range p.Atoms {
				if a.Op == "EQ" && !a.Neg && (strings.HasPrefix(a.A, "const:http://www.w3.org/") || strings.HasPrefix(a.B, "const:http://www.w3.org/")) {
					matched = true
				}
			}
			if !matched {
				bad = "an algorithm that equals none of the known signature methods is accepted (" + atomsString(p.Atoms) + ")"
			}
		}
		if !okp {
			bad = "too many paths"
		}
		r.Check(bad == "" && nOK > 0, "R-GUARD", "isValidSignatureAlgorithm", w.FnPos(iv), fmt.Sprintf("%d accepting paths, each under equality with a known method", nOK), bad)
	}
	if nSignSites < 5 {
		r.Fail("R-ORDER", "#signing-sites", "", fmt.Sprintf("only %d signing call sites found in handler-reachable code", nSignSites))
	}
	// the handlers that pass a signed message along do not touch it
	for _, hk := range []string{kCallback, "provider.(*IdentityProvider).loginResponse", kMeta} {
		f := w.Func(hk)
		if f == nil {
			continue
		}
		bad := ""
		for _, st := range fx.info(f).stores {
			if fa, ok := st.Addr.(*ssa.FieldAddr); ok && msgTypes[fieldOwner(fa.X.Type())] {
				bad = "stores to " + fieldOwner(fa.X.Type()) + "." + fname(fieldVar(fa.X.Type(), fa.Field)) + " at " + w.InstrPos(st)
			}
		}
		r.Check(bad == "", "R-ORDER", "passes-message-untouched:"+hk, w.FnPos(f), "no store to the message between signing and sending", hk+" "+bad)
	}
	cx.checkRedirectTarget(r, "R-VFG")
	// signed metadata only after Create succeeded
	if gm := w.Func("provider.(*Provider).GetMetadata"); gm != nil {
		aps, ok := fx.atomPaths(gm, 4096)
		bad := ""
		nSigned := 0
		if !ok {
			bad = "too many paths"
		}
		for i := range aps {
			p := &aps[i]
			isNil, _ := fx.errNilness(p, fx.retVal(p, 1))
			if !isNil {
				continue
			}
			configured := false
			for _, a := range p.Atoms {
				if a.Op == "EMPTY" && a.Neg && strings.HasSuffix(a.A, "MetadataConfig.SignatureAlgorithm") {
					configured = true
				}
			}
			if !configured {
				continue
			}
			nSigned++
			okCreate := false
			for _, a := range p.Atoms {
				if a.Op == "NIL" && !a.Neg && strings.HasSuffix(a.A, "signature.Create#1") {
					okCreate = true
				}
			}
			if !okCreate {
				bad = "with metadata signing configured the document is returned on a path where signature.Create did not succeed"
			}
		}
		r.Check(bad == "" && nSigned > 0, "R-GUARD", "GetMetadata:signed-before-returned", w.FnPos(gm), "with signing configured, returned only after signature.Create returned nil", bad)
	}
	// attribute query: sign step precedes the single emit (chain)
	if cx.requireC20(r) {
		if k := cx.attrChain(newReport("tmp", "quick")); k != nil && k.sign != nil && k.userinfo != nil {
			r.Check(k.sign.Kind == "WithLogicStep", "R-ORDER", "attr:sign-unconditional", k.sign.Pos, "the signing step runs for every query that reaches it", "the signing step of the attribute-query chain is a "+k.sign.Kind+": under its condition a Success assertion is sent unsigned")
			r.Check(k.userinfo.Idx < k.sign.Idx && k.sign.Idx == len(k.ch.Steps)-1, "R-ORDER", "attr:sign-last", k.sign.Pos, "the signing step is the last step, after the response was built; the emit follows the chain", "the attribute-query response is not signed as the last step before it is emitted")
		}
	}

	// --- signer discipline: a signing function reports success only after the signing call succeeded ----------------
	// (the mirror image of C05's verifier discipline: `if err != nil` weakened, an early `return nil`, or an error of an
	// earlier step returned while it is nil, hands back "signed" without a signature - the reply goes out unsigned)
	for _, sg := range []struct {
		key    string
		crypto []string
	}{
		{"provider.createRedirectSignature", []string{"signature.CreateRedirect"}},
		{"provider.createPostSignature", []string{"signature.Create"}},
		{"signature.Create", []string{"iface:xmlsig.Signer.CreateSignature"}},
		{"signature.CreateRedirect", []string{"(*github.com/russellhaering/goxmldsig.SigningContext).SignString"}},
	} {
		fn := w.Func(sg.key)
		if fn == nil {
			r.Fail("R-SIGNER", sg.key, "", "anchor function not found")
			continue
		}
		helperOK := map[*ssa.Function]int{} // 0 unknown, 1 busy, 2 ok, 3 no
		var isCrypto func(c ssa.CallInstruction) bool
		isCrypto = func(c ssa.CallInstruction) bool {
			// a helper of the module that obeys the discipline itself (`signRedirectQuery(cert, key, alg, query)`)
			if f := calleeOf(c); f != nil && f.Blocks != nil && f.Pkg != nil && isModulePath(f.Pkg.Pkg.Path()) && !isMockPath(f.Pkg.Pkg.Path()) {
				direct := false
				for _, want := range sg.crypto {
					if w.FuncKey(f) == want || w.FuncKey(throughDelegation(f)) == want {
						direct = true
					}
				}
				if !direct {
					switch helperOK[f] {
					case 2:
						return true
					case 1, 3:
						return false
					}
					helperOK[f] = 1
					st, _, _ := cx.verifierEval(f, isCrypto)
					if st == "ok" {
						helperOK[f] = 2
						return true
					}
					helperOK[f] = 3
					return false
				}
			}
			n := calleeName(c)
			if f := calleeOf(c); f != nil && f.Pkg != nil && isModulePath(f.Pkg.Pkg.Path()) {
				n = w.FuncKey(throughDelegation(f))
				if k := w.FuncKey(f); k != n {
					for _, want := range sg.crypto {
						if k == want {
							return true
						}
					}
				}
			}
			for _, want := range sg.crypto {
				if n == want {
					return true
				}
			}
			return false
		}
		st, pos, msg := cx.verifierEval(throughDelegation(fn), isCrypto)
		switch st {
		case "ok":
			r.Ok("R-SIGNER", sg.key, pos, "a nil error only as / under the verdict of the signing call")
		case "undecided":
			r.Undecided("R-SIGNER", sg.key, pos, msg)
		case "nocalls":
			r.Fail("R-SIGNER", sg.key, pos, "the function no longer calls "+strings.Join(sg.crypto, " / ")+": nothing is signed")
		default:
			r.Fail("R-SIGNER", sg.key, pos, strings.Replace(msg, "no signature verification succeeded", "the signing call did not succeed", 1)+": the caller takes the message for signed")
		}
	}

	// ... and the signature that was made is the one attached: wherever signature.Create is called, its result is
	// stored into the message's Signature field before any return that reports success
	nAttach := 0
	// a module function that hands the signature on to its caller as its own first result - together with the signing
	// call's verdict, and with nothing but certain errors on its other returns - makes a signature just as
	// signature.Create does: the obligation to attach it moves to its callers
	producers := map[*ssa.Function]bool{}
	if sc := w.Func("signature.Create"); sc != nil {
		producers[sc] = true
	}
	handsOn := func(fn *ssa.Function, call *ssa.Call, sigv ssa.Value) bool {
		if sigv == nil || fn.Signature.Results().Len() < 2 || !isErrorType(fn.Signature.Results().At(fn.Signature.Results().Len()-1).Type()) {
			return false
		}
		handed := false
		for _, ret := range returnsOf(fn) {
			if len(ret.Results) < 2 {
				return false
			}
			last := ret.Results[len(ret.Results)-1]
			if isFreshError(last) {
				continue
			}
			if nonNil, tested := fx.errBranches(last); tested {
				onFailing := false
				for _, nb := range nonNil {
					if len(nb.Preds) == 1 && (nb == ret.Block() || nb.Dominates(ret.Block())) {
						onFailing = true
					}
				}
				if onFailing {
					continue
				}
			}
			ex, isE := last.(*ssa.Extract)
			if ret.Results[0] == sigv && isE && ex.Tuple == ssa.Value(call) {
				handed = true
				continue
			}
			return false
		}
		return handed
	}
	for round := 0; round < 3; round++ {
		grew := false
		for _, fn := range w.Funcs {
			if producers[fn] {
				continue
			}
			for _, c := range callsIn(fn) {
				call, isCall := c.(*ssa.Call)
				g := calleeOf(c)
				if !isCall || g == nil || !producers[g] || round == 0 && w.FuncKey(g) != "signature.Create" || round > 0 && w.FuncKey(g) == "signature.Create" {
					continue
				}
				var sigv ssa.Value
				for _, ref := range nonDebugRefs(call) {
					if ex, isE := ref.(*ssa.Extract); isE && ex.Index == 0 {
						sigv = ex
					}
				}
				if handsOn(fn, call, sigv) {
					producers[fn] = true
					grew = true
					r.Ok("R-SIGNER", "attach@"+w.FuncKey(fn), w.InstrPos(call), "the signature and the verdict of the signing call are handed to the caller, nothing else reports success")
					continue
				}
				nAttach++
				var stores []*ssa.Store
				if sigv != nil {
					for _, st := range fx.info(fn).stores {
						fa, isFA := st.Addr.(*ssa.FieldAddr)
						if !isFA || fname(fieldVar(fa.X.Type(), fa.Field)) != "Signature" {
							continue
						}
						same := st.Val == sigv
						for _, a := range fx.aliasesOf(sigv) {
							if a == st.Val {
								same = true
							}
						}
						if same {
							stores = append(stores, st)
						}
					}
				}
				bad := ""
				if len(stores) == 0 {
					bad = "the signature made here is never stored into the message"
				}
				fi := fx.info(fn)
				for _, ret := range returnsOf(fn) {
					if bad != "" || len(ret.Results) == 0 || !fi.reachable(call.Block(), ret.Block()) && call.Block() != ret.Block() {
						continue
					}
					last := ret.Results[len(ret.Results)-1]
					if !isErrorType(last.Type()) {
						continue
					}
					if isFreshError(last) {
						continue
					}
					// a return that can report success (nil, or an error value that may be nil): the store comes first
					if !isNilConst(last) {
						if nonNil, tested := fx.errBranches(last); tested {
							onFailing := false
							for _, nb := range nonNil {
								// (a block that can also be entered another way - `if err != nil || always` - is not the failing side)
								if len(nb.Preds) == 1 && (nb == ret.Block() || nb.Dominates(ret.Block())) {
									onFailing = true
								}
							}
							if onFailing {
								continue
							}
						}
					}
					// no way from the signing call to this return that passes neither the store nor the failing side of the call
					avoid := map[*ssa.BasicBlock]bool{}
					for _, st := range stores {
						avoid[st.Block()] = true
					}
					if ce, has, _ := errResult(call); has && ce != nil {
						nb, _ := fx.errBranches(ce)
						for _, b := range nb {
							if len(b.Preds) == 1 {
								avoid[b] = true
							}
						}
					}
					okS := avoid[call.Block()] || avoid[ret.Block()]
					if !okS {
						seenB := map[*ssa.BasicBlock]bool{call.Block(): true}
						work := []*ssa.BasicBlock{call.Block()}
						reached := false
						for len(work) > 0 && !reached {
							b := work[0]
							work = work[1:]
							for _, sc := range b.Succs {
								if seenB[sc] || avoid[sc] {
									continue
								}
								if sc == ret.Block() {
									reached = true
								}
								seenB[sc] = true
								work = append(work, sc)
							}
						}
						okS = !reached && call.Block() != ret.Block()
					}
					if !okS {
						bad = "a return that reports success (" + w.InstrPos(ret) + ") is reached without the signature having been attached to the message"
					}
				}
				r.Check(bad == "", "R-SIGNER", "attach@"+w.FuncKey(fn), w.InstrPos(call), "the signature is attached before success is reported", bad+": the message is taken for signed and sent without its signature")
			}
		}
		if !grew {
			break
		}
	}
	if nAttach == 0 {
		r.Fail("R-SIGNER", "attach:#sites", "", "no call of signature.Create found")
	}

	// --- sign table = send table ------------------------------------------------------------------------
	cs := w.Func("provider.createSignature")
	sb := w.Func("provider.(*Response).sendBackResponse")
	if cs == nil || sb == nil {
		r.Fail("R-SIB", "createSignature/sendBackResponse", "", "anchors not found")
		return
	}
	bindingsAt := func(fn *ssa.Function, match func(ssa.CallInstruction) bool, field string) (map[string]bool, bool) {
		out := map[string]bool{}
		undisc := false
		var all []ssa.CallInstruction
		for _, g := range cx.privateHelpers(fn) {
			all = append(all, callsIn(g)...)
		}
		for _, c := range all {
			if !match(c) {
				continue
			}
			pts, ok := fx.atomPathsTo(c.Block(), 4096)
			if !ok {
				continue
			}
			// the case may be decided where the piece of fn that holds the call is called (at each such place)
			var outer []APath
			for _, via := range cx.viaSites(fn, c) {
				if via != c {
					o, _ := fx.atomPathsTo(via.Block(), 4096)
					outer = append(outer, o...)
				}
			}
			if len(outer) > 0 {
				var comb []APath
				for _, o := range outer {
					for _, p := range pts {
						q := p
						q.Atoms = append(append([]Atom{}, o.Atoms...), p.Atoms...)
						comb = append(comb, q)
					}
				}
				pts = comb
			}
			for _, p := range pts {
				found := false
				for _, a := range p.Atoms {
					if a.Op == "EQ" && !a.Neg && (strings.HasSuffix(a.A, field) || strings.HasSuffix(a.B, field)) {
						cst := a.A
						if !strings.HasPrefix(cst, "const:") {
							cst = a.B
						}
						out[strings.TrimPrefix(cst, "const:urn:oasis:names:tc:SAML:2.0:bindings:")] = true
						found = true
					}
				}
				if !found {
					undisc = true
				}
			}
		}
		return out, undisc
	}
	signB, _ := bindingsAt(cs, func(c ssa.CallInstruction) bool {
		f := calleeOf(c)
		return f != nil && (w.FuncKey(f) == "provider.createPostSignature" || w.FuncKey(f) == "provider.createRedirectSignature")
	}, ".ProtocolBinding")
	sendB, _ := bindingsAt(sb, func(c ssa.CallInstruction) bool {
		k := fx.replyAct(c)
		return k == "Template.Execute" || k == "http.Redirect"
	}, ".ProtocolBinding")
	same := len(signB) == len(sendB) && len(signB) > 0
	for b := range signB {
		if !sendB[b] {
			same = false
		}
	}
	// each kind of delivery under the binding whose signature it can carry: the form (enveloped signature) only for
	// HTTP-POST, the redirect (detached signature in the query) only for HTTP-Redirect
	formB, _ := bindingsAt(sb, func(c ssa.CallInstruction) bool { return fx.replyAct(c) == "Template.Execute" }, ".ProtocolBinding")
	redirB, _ := bindingsAt(sb, func(c ssa.CallInstruction) bool { return fx.replyAct(c) == "http.Redirect" }, ".ProtocolBinding")
	kindBad := ""
	for b := range formB {
		if b != "HTTP-POST" {
			kindBad = "the auto-submit form is also delivered for " + b + ", whose signature is not in the document: the assertion in that form is unsigned"
		}
	}
	for b := range redirB {
		if b != "HTTP-Redirect" {
			kindBad = "a redirect is also used for " + b + ", which createSignature signs differently"
		}
	}
	r.Check(kindBad == "", "R-SIB", "delivery-kind-per-binding", w.FnPos(sb), "form only for HTTP-POST, redirect only for HTTP-Redirect", kindBad)
	r.Check(same, "R-SIB", "sign-table=send-table", w.FnPos(cs), fmt.Sprintf("signing cases %v = delivery cases %v", keysOf(signB), keysOf(sendB)), fmt.Sprintf("createSignature signs for %v but sendBackResponse delivers for %v: a binding can be delivered without its signature", keysOf(signB), keysOf(sendB)))
	// the raw-body path
	for _, c := range callsIn(sb) {
		if fx.replyAct(c) != "xml.Write" {
			continue
		}
		pts, _ := fx.atomPathsTo(c.Block(), 4096)
		undisc := false
		for _, p := range pts {
			d := false
			for _, a := range p.Atoms {
				if a.Op == "EQ" && !a.Neg && strings.HasSuffix(a.A+"|"+a.B, ".ProtocolBinding") || a.Op == "EQ" && !a.Neg && strings.Contains(a.A+"|"+a.B, ".ProtocolBinding|") {
					d = true
				}
			}
			if !d {
				undisc = true
			}
		}
		detached := signB["HTTP-Redirect"] // a binding whose signature is not inside the document
		if undisc && detached {
			r.Fail("R-SIG-RAWBODY", "provider.(*Response).sendBackResponse#raw-body", w.InstrPos(c), "when no consumer URL is known the response is written as a raw XML body whatever the binding; for HTTP-Redirect the signature is detached (query string), so a Success assertion leaves the IdP unsigned (stored request: binding HTTP-Redirect, empty consumer URL)")
		} else {
			r.Ok("R-SIG-RAWBODY", "provider.(*Response).sendBackResponse#raw-body", w.InstrPos(c), "the raw-body path is limited to bindings with an enveloped signature")
		}
	}

	// --- signed octets = sent octets ---------------------------------------------------------------------
	crs := w.Func("provider.createRedirectSignature")
	if crs == nil {
		r.Fail("R-VFG", "createRedirectSignature", "", "anchor not found")
		return
	}
	var signCall, sendCall ssa.CallInstruction
	for _, g := range cx.privateHelpers(crs) {
		for _, c := range callsIn(g) {
			if f := calleeOf(c); f != nil && w.FuncKey(f) == "provider.BuildRedirectQuery" {
				signCall = c
			}
		}
	}
	for _, g := range cx.privateHelpers(sb) {
		for _, c := range callsIn(g) {
			if f := calleeOf(c); f != nil && w.FuncKey(f) == "provider.BuildRedirectQuery" {
				sendCall = c
			}
		}
	}
	if signCall == nil || sendCall == nil {
		r.Fail("R-VFG", "redirect:query-sites", "", "BuildRedirectQuery is not used at both the signing and the sending site")
	} else {
		a, b := cx.callChainOf(signCall.Common().Args[0]), cx.callChainOf(sendCall.Common().Args[0])
		r.Check(a == b && strings.Contains(a, "xml.DeflateAndBase64") && strings.Contains(a, "xml.Marshal") && strings.HasSuffix(a, "the response"), "R-VFG", "redirect:SAMLResponse-pipeline", w.InstrPos(sendCall), "both sites: "+a, "the SAMLResponse value signed ("+a+") is not computed like the one sent ("+b+")")
		// the signature slot is empty when signing
		sg, _ := constString(signCall.Common().Args[3])
		_, isC := signCall.Common().Args[3].(*ssa.Const)
		r.Check(isC && sg == "", "R-VFG", "redirect:sign-without-signature-slot", w.InstrPos(signCall), "the string signed has no Signature parameter", "the string that is signed already contains a Signature parameter")
		// sigAlg at the signing site is the raw algorithm parameter
		// (through the parameters of a private piece of the signing function to what it was handed there)
		sigAlgArg := signCall.Common().Args[2]
		for hop := 0; hop < 3; hop++ {
			prm, isP := sigAlgArg.(*ssa.Parameter)
			if !isP || prm.Parent() == crs || len(fx.argsOf[prm]) != 1 {
				break
			}
			sigAlgArg = fx.argsOf[prm][0]
		}
		r.Check(fx.T(fx.path(sigAlgArg)) == "<#3 string>" && (sigAlgArg.Parent() == nil || sigAlgArg.Parent() == crs), "R-VFG", "redirect:signed-sigalg", w.InstrPos(signCall), "the configured algorithm URI", "the SigAlg that is signed is not the plain algorithm URI")
		// sending site uses the Response fields
		for i, f := range map[int]string{1: "<provider.Response>.RelayState", 2: "<provider.Response>.SigAlg", 3: "<provider.Response>.Signature"} {
			p := fx.T(fx.path(sendCall.Common().Args[i]))
			r.Check(strings.HasSuffix(p, f), "R-VFG", fmt.Sprintf("redirect:send-arg%d", i), w.InstrPos(sendCall), "sent value is "+f, fmt.Sprintf("argument %d of the sent query is %s, not %s", i, p, f))
		}
	}
	// what createSignature stores into Response.SigAlg / Signature
	lvf := cx.newVFlow("createSignature", cs)
	for _, f := range []struct {
		field string
		vias  []string
	}{{"SigAlg", nil}, {"Signature", []string{"via:(*base64.Encoding).EncodeToString"}}} {
		ls, sites := lvf.FieldStoreSources("provider.Response", f.field)
		if len(sites) == 0 {
			r.Fail("R-VFG", "redirect:Response."+f.field, w.FnPos(cs), "createSignature does not store the "+f.field+" of the redirect signature")
			continue
		}
		var extra []string
		for _, l := range ls.keys() {
			if !strings.HasPrefix(l, "via:") {
				continue
			}
			okV := false
			for _, v := range f.vias {
				if v == l {
					okV = true
				}
			}
			if !okV {
				extra = append(extra, strings.TrimPrefix(l, "via:"))
			}
		}
		want := "the raw algorithm URI"
		if f.field == "Signature" {
			want = "base64 of the raw signature"
		}
		r.Check(len(extra) == 0, "R-VFG", "redirect:Response."+f.field, w.InstrPos(sites[0]), want+" (URL-encoded once, by BuildRedirectQuery)", "Response."+f.field+" is additionally passed through "+strings.Join(extra, ", ")+" before BuildRedirectQuery URL-encodes it: the parameter sent is not "+want)
	}
	// RelayState signed = Response.RelayState
	for _, c := range callsIn(cs) {
		if calleeOf(c) == crs {
			r.Check(strings.HasSuffix(fx.T(fx.path(c.Common().Args[4])), "<provider.Response>.RelayState"), "R-VFG", "redirect:signed-relaystate", w.InstrPos(c), "the RelayState that is signed is Response.RelayState, the one sent", "the RelayState that is signed is not the Response.RelayState that is sent")
		}
	}
	cx.checkBuildRedirectQuery(r)

	// the octets signed cannot be overwritten before they are sent
	cx.checkPoolEscape(r)
	cx.checkKeyPairChecked(r)

	// the signer used for enveloped signatures is built for this request from the key just read (not cached)
	for _, e := range []struct{ key, short string }{{kCallback, "callback"}, {kAttr, "attr"}, {kMeta, "metadata"}} {
		vf := cx.vflow(e.key)
		if vf == nil {
			continue
		}
		ls, sites := vf.CallArgSources(matchFnKey(w, "signature.Create"), 0)
		if len(sites) == 0 {
			continue
		}
		r.checkSources("R-VFG", e.short+":signature.Create:signer", w.InstrPos(sites[0]), ls, []string{"ext:xmlsig.NewSignerWithOptions#0"}, []string{"ext:xmlsig.NewSignerWithOptions#0"}, true)
	}
	// the types that get signed keep the encode table the canonicaliser was checked against
	cx.checkTags(r, "R-TAG", "samlp.ResponseType", "saml.AssertionType", "saml.NameIDType", "saml.SubjectType", "saml.SubjectConfirmationType", "saml.SubjectConfirmationDataType",
		"saml.ConditionsType", "saml.AudienceRestrictionType", "saml.AttributeStatementType", "saml.AttributeType", "saml.AuthnStatementType", "saml.AuthnContextType",
		"md.EntityDescriptorType", "md.IDPSSODescriptorType", "md.AttributeAuthorityDescriptorType", "md.EndpointType", "md.KeyDescriptorType", "md.OrganizationType",
		"md.LocalizedNameType", "md.LocalizedURIType", "md.ContactType", "xml_dsig.KeyInfoType", "xml_dsig.X509DataType")

	// --- canonicaliser -------------------------------------------------------------------------------------
	cx.checkCanonicalizer(r)
	r.Min("R-VFG", 6)
}

func keysOf(m map[string]bool) []string {
	var out []string
	for k := range m {
		out = append(out, k)
	}
	sortStrings(out)
	return out
}

// checkCanonicalizer: in the canonicaliser of github.com/amdonov/xmlsig (reached from signature.Create through
// Signer.CreateSignature), character data and attribute values obtained from the XML decoder reach the output
// writer only through an XML escaping function.
func (cx *Ctx) checkCanonicalizer(r *Report) {
	w := cx.W
	var pkg *ssa.Package
	for _, p := range w.Prog.AllPackages() {
		if p.Pkg.Path() == "github.com/amdonov/xmlsig" {
			pkg = p
		}
	}
	if pkg == nil {
		r.Ok("R-C14N", "xmlsig", "", "github.com/amdonov/xmlsig is not part of the program")
		return
	}
	can := pkg.Func("canonicalize")
	if can == nil {
		r.Undecided("R-C14N", "xmlsig.canonicalize", "", "the canonicaliser function was not found in the dependency")
		return
	}
	// reached from the Signer the module uses
	reached := false
	for _, m := range pkg.Members {
		_ = m
	}
	for fn := range ssaFuncsOf(pkg) {
		if fnName(fn) == "CreateSignature" || fnName(fn) == "Sign" {
			for _, c := range callsIn(fn) {
				if calleeOf(c) == can {
					reached = true
				}
			}
		}
	}
	if !reached {
		r.Ok("R-C14N", "xmlsig.canonicalize:reached", "", "the signer no longer uses this canonicaliser")
		return
	}
	fns := append([]*ssa.Function{can}, can.AnonFuncs...)
	isNamed := func(t types.Type, name string) bool {
		n, ok := t.(*types.Named)
		return ok && n.Obj().Pkg() != nil && n.Obj().Pkg().Path() == "encoding/xml" && n.Obj().Name() == name
	}
	charBad, attrBad := "", ""
	for _, fn := range fns {
		for _, c := range callsIn(fn) {
			name := calleeName(c)
			args := c.Common().Args
			switch {
			case strings.HasSuffix(name, ".Write") && len(args) >= 2:
				v := args[1]
				for {
					if ct, ok := v.(*ssa.ChangeType); ok {
						v = ct.X
						continue
					}
					break
				}
				if ta, ok := v.(*ssa.TypeAssert); ok && isNamed(ta.AssertedType, "CharData") {
					charBad = w.InstrPos(c)
				}
				if ex, ok := v.(*ssa.Extract); ok {
					if ta, ok := ex.Tuple.(*ssa.TypeAssert); ok && isNamed(ta.AssertedType, "CharData") {
						charBad = w.InstrPos(c)
					}
				}
			case name == "fmt.Fprintf" && len(args) >= 3:
				for i := int64(0); i < 4; i++ {
					e := varargElem(args[2], i)
					if e == nil {
						continue
					}
					if ld, ok := e.(*ssa.UnOp); ok && ld.Op == token.MUL {
						if fa, ok := ld.X.(*ssa.FieldAddr); ok && isNamed(derefType(fa.X.Type()), "Attr") && fname(fieldVar(fa.X.Type(), fa.Field)) == "Value" {
							attrBad = w.InstrPos(c)
						}
					}
					if f, ok := e.(*ssa.Field); ok && isNamed(f.X.Type(), "Attr") {
						if fname(f.X.Type().Underlying().(*types.Struct).Field(f.Field)) == "Value" {
							attrBad = w.InstrPos(c)
						}
					}
				}
			}
		}
	}
	if charBad != "" {
		r.Fail("R-C14N", "xmlsig.canonicalize#chardata", charBad, "the canonicaliser writes decoded character data to the canonical form without escaping: a user attribute, NameID or status text containing & or < gives a digest no conformant verifier reproduces (e.g. user name \"a&b<c>\")")
	} else {
		r.Ok("R-C14N", "xmlsig.canonicalize#chardata", "", "character data is not copied unescaped")
	}
	if attrBad != "" {
		r.Fail("R-C14N", "xmlsig.canonicalize#attr-value", attrBad, "the canonicaliser formats decoded attribute values into the canonical form without escaping: a consumer URL or request ID containing & (e.g. https://sp/acs?a=1&b=2 in Destination/Recipient) gives a digest no conformant verifier reproduces")
	} else {
		r.Ok("R-C14N", "xmlsig.canonicalize#attr-value", "", "attribute values are not copied unescaped")
	}
}

func derefType(t types.Type) types.Type {
	if p, ok := t.Underlying().(*types.Pointer); ok {
		return p.Elem()
	}
	return t
}

func ssaFuncsOf(pkg *ssa.Package) map[*ssa.Function]bool {
	out := map[*ssa.Function]bool{}
	for _, m := range pkg.Members {
		switch x := m.(type) {
		case *ssa.Function:
			out[x] = true
		case *ssa.Type:
			for _, t := range []types.Type{x.Type(), types.NewPointer(x.Type())} {
				ms := pkg.Prog.MethodSets.MethodSet(t)
				for i := 0; i < ms.Len(); i++ {
					if f := pkg.Prog.MethodValue(ms.At(i)); f != nil {
						out[f] = true
					}
				}
			}
		}
	}
	return out
}

// checkBuildRedirectQuery: each of the four values is encoded exactly once, with url.QueryEscape (the
// application/x-www-form-urlencoded encoding a receiver undoes with one decoding step), and nothing else.
func (cx *Ctx) checkBuildRedirectQuery(r *Report) {
	w := cx.W
	bq := w.Func("provider.BuildRedirectQuery")
	if bq == nil {
		r.Fail("R-VFG", "BuildRedirectQuery:escape-once", "", "anchor not found")
		return
	}
	lvf := cx.newVFlow("BuildRedirectQuery", bq)
	ls := LabelSet{}
	for _, ret := range returnsOf(bq) {
		ls.addAll(lvf.Labels(ret.Results[0]), 0)
	}
	ls = lvf.Deep(ls)
	bad := ""
	for _, l := range ls.keys() {
		if strings.HasPrefix(l, "via:") && l != "via:concat" && l != "via:url.QueryEscape" && l != "via:fmt.Sprintf" {
			bad = "a value passes through " + strings.TrimPrefix(l, "via:") + " instead of url.QueryEscape: the receiver's query decoding does not give back the value that was put in (and that was signed)"
		}
	}
	n := 0
	seenParam := map[int]bool{}
	for _, c := range callsIn(bq) {
		if calleeName(c) == "net/url.QueryEscape" {
			n++
			p, isP := c.Common().Args[0].(*ssa.Parameter)
			if !isP {
				bad = "QueryEscape is applied to something other than a parameter (double encoding)"
				continue
			}
			for i, q := range bq.Params {
				if q == p {
					seenParam[i] = true
				}
			}
		}
	}
	// every parameter reaches the result only through the escaping call
	for i := range bq.Params {
		if _, raw := ls[fmt.Sprintf("param:provider.BuildRedirectQuery/#%d", i)]; raw && ls[fmt.Sprintf("param:provider.BuildRedirectQuery/#%d", i)]&flTransformed == 0 {
			bad = fmt.Sprintf("parameter %d reaches the query unencoded", i)
		}
		if !seenParam[i] {
			bad = fmt.Sprintf("parameter %d is not encoded with url.QueryEscape", i)
		}
	}
	r.Check(n == len(bq.Params) && bad == "", "R-VFG", "BuildRedirectQuery:escape-once", w.FnPos(bq), "each of the four values is URL-encoded exactly once with url.QueryEscape", fmt.Sprintf("%d QueryEscape calls for %d values; %s", n, len(bq.Params), bad))
}

// checkKeyPairChecked: the key pair used for signing is checked to belong together (tls.X509KeyPair verifies that
// the private key matches the certificate; a mismatched pair from storage must be an error, not a signature nobody
// can verify with the certificate the metadata publishes).
func (cx *Ctx) checkKeyPairChecked(r *Report) {
	w := cx.W
	if pk := w.Func("signature.ParseTlsKeyPair"); pk != nil {
		pvf := cx.newVFlow("ParseTlsKeyPair", pk)
		ls := LabelSet{}
		for _, ret := range returnsOf(pk) {
			ls.addAll(pvf.Labels(ret.Results[0]), 0)
		}
		r.checkSources("R-VFG", "ParseTlsKeyPair:checked-pair", w.FnPos(pk), ls, []string{"ext:tls.X509KeyPair#0"}, []string{"ext:tls.X509KeyPair#0"}, true)
	} else {
		r.Fail("R-VFG", "ParseTlsKeyPair:checked-pair", "", "anchor not found")
	}
	// ... and every signing object the handlers make is made from that checked pair: a signing context or signer built
	// straight from the key storage handed out signs whatever certificate came with it
	n := 0
	for _, hk := range []string{kSSO, kCallback, kLogout, kAttr, kMeta} {
		vf := cx.vflow(hk)
		if vf == nil {
			continue
		}
		for _, ctor := range []struct {
			name  string
			idx   int
			allow []string
		}{
			{"github.com/russellhaering/goxmldsig.NewSigningContext", 0, []string{"ext:tls.X509KeyPair#0*"}},
			{"github.com/russellhaering/goxmldsig.NewDefaultSigningContext", 0, []string{"ext:tls.X509KeyPair#0"}}, // (dsig.TLSCertKeyStore is a conversion of the pair)
			{"github.com/amdonov/xmlsig.NewSignerWithOptions", 0, []string{"ext:tls.X509KeyPair#0"}},
			{"github.com/amdonov/xmlsig.NewSigner", 0, []string{"ext:tls.X509KeyPair#0"}},
		} {
			ls, sites := vf.CallArgSources(matchCallee(ctor.name), ctor.idx)
			if len(sites) == 0 {
				continue
			}
			n++
			r.checkSources("R-VFG", shortCallee(ctor.name)+":checked-pair@"+hk, w.InstrPos(sites[0]), ls, ctor.allow, nil, false)
		}
	}
	r.Check(n >= 3, "R-VFG", "signing-objects:#sites", "", fmt.Sprintf("%d constructions of signing objects reached from the handlers", n), fmt.Sprintf("only %d constructions of signing objects found", n))
}

// checkNoIndentedEncoding: signed messages are serialised exactly as they were signed - no Encoder.Indent /
// MarshalIndent anywhere in the module's serialisers: inserted white space is part of the canonical form of the
// signed element, the digest no longer matches and the published certificate does not verify the message.
func (cx *Ctx) checkNoIndentedEncoding(r *Report) {
	w := cx.W
	n := 0
	for _, fn := range w.Funcs {
		for _, c := range callsIn(fn) {
			switch calleeName(c) {
			case "(*encoding/xml.Encoder).Indent", "encoding/xml.MarshalIndent":
				n++
				r.Fail("R-C14N", "indent@"+w.FuncKey(fn), w.InstrPos(c), shortCallee(calleeName(c))+" pretty-prints a message when it is written: a message signed before (assertion of an attribute-query response, signed metadata) gets white space inside the signed element and its signature no longer verifies")
			}
		}
	}
	if n == 0 {
		r.Ok("R-C14N", "no-indent", "", "no serialiser of the module indents its output")
	}
}
